"""C14 — B-tree, KVStore and TransactionManager families: real-implementation runners and generators.

Same technique as the LSM family (`c14_impl.py`): worker entities run scripts inside a real `Simulation`;
every storage / transaction operation is a real generator of the real component run through `traced`,
which records which operation advanced at every generator segment.  That schedule is an input of the
Lean model.
"""
from __future__ import annotations

from hv import core  # noqa: F401  (puts HV_REPO first on sys.path)
from hv.props.c14_impl import Rec, _Stop, fp_table, make_strategy, traced, vtok


def kname(i):
    return f"k{i:02d}"


def kidx(s):
    return int(s[1:])


def cellstr(v):
    return vtok(v)


def dump_node(node):
    if node.leaf:
        return "(" + ",".join(f"{kidx(k)}={vtok(v)}" for k, v in zip(node.keys, node.values)) + ")"
    if len(node.children) != len(node.keys) + 1:
        return "?!"
    return "[" + dump_node(node.children[0]) + "".join(
        f"|{kidx(node.keys[i])}|" + dump_node(node.children[i + 1]) for i in range(len(node.keys))) + "]"


def make_store(spec, lat):
    from happysimulator.components.datastore.kv_store import KVStore
    from happysimulator.components.storage.btree import BTree

    r, w = lat.get("r", 1000) * 1e-6, lat.get("w", 2000) * 1e-6
    if spec[0] == "bt":
        return BTree("bt", order=spec[1], page_read_latency=r, page_write_latency=w)
    if spec[0] == "lsm":
        # ["lsm", memtable size, max levels, compaction strategy]; no WAL (the transaction manager uses put_sync / get_sync / get)
        from happysimulator.components.storage.lsm_tree import LSMTree
        return LSMTree("lsm", memtable_size=spec[1], compaction_strategy=make_strategy(spec[3]), wal=None,
                       sstable_read_latency=r, sstable_write_latency=w, max_levels=spec[2])
    return KVStore("kv", read_latency=r, write_latency=w)


def store_lines(spec, store, nkeys):
    out = ["final " + " ".join(cellstr(store.get_sync(kname(k))) for k in range(nkeys))]
    if spec[0] == "lsm":
        summ = {d["level"]: (d["sstables"], d["total_keys"]) for d in store.level_summary}
        return out + ["size 0", "levels " + " ".join(f"{summ.get(i, (0, 0))[0]}:{summ.get(i, (0, 0))[1]}" for i in range(spec[2]))]
    out.append(f"size {store.size}")
    if spec[0] == "bt":
        out.append(f"shape {store.depth} {dump_node(store._root)}")     # private: node structure (trusted_base)
    else:
        out.append("shape 1 (" + ",".join(f"{kidx(k)}={vtok(store.get_sync(k))}" for k in sorted(store.keys())) + ")")
    return out


def _sync_gen(fn):
    """a one-segment 'generator' around a synchronous call"""
    return fn()
    yield  # pragma: no cover


def _run(case, store, extra_entities, make_gen, fmt):
    """shared worker loop; make_gen(op, ctx) -> generator or None (skip); fmt(op, result) -> token"""
    from happysimulator.core.entity import Entity
    from happysimulator.core.event import Event
    from happysimulator.core.simulation import Simulation
    from happysimulator.core.temporal import Instant

    rec = Rec(max_segments=20000)

    class Worker(Entity):
        def __init__(self, wid, ops):
            super().__init__(f"w{wid}")
            self.wid, self.ops_ = wid, ops

        def handle_event(self, event):
            for j, op in enumerate(self.ops_):
                if op[0] == "sleep":
                    yield op[1] * 1e-6
                    continue
                g = make_gen(op)
                if g is None:
                    continue
                opid = self.wid * 100 + j
                entry = [op, len(rec.sched), None, None]
                res = yield from traced(rec, opid, g, entry)
                entry[2] = len(rec.sched) - 1
                entry[3] = fmt(op, res)

    workers = [Worker(i, w["ops"]) for i, w in enumerate(case["workers"])]
    sim = Simulation(start_time=Instant.from_seconds(0), end_time=Instant.from_seconds(1000),
                     entities=[store] + extra_entities + workers)
    sim.schedule([Event(time=Instant.from_seconds(w["start"] * 1e-6), event_type="go", target=workers[i])
                  for i, w in enumerate(case["workers"])])
    try:
        sim.run()
    except _Stop:
        pass
    return rec


def store_spec(case):
    return ["bt", case["order"]] if case["family"] == "btree" else ["kv"]


def run_store(case):
    spec = store_spec(case)
    store = make_store(spec, case.get("lat", {}))
    n = case["nkeys"]

    def make_gen(op):
        if op[0] == "put":
            return store.put(kname(op[1]), op[2])
        if op[0] == "del":
            return store.delete(kname(op[1]))
        if op[0] == "get":
            return store.get(kname(op[1]))
        if op[0] == "scan":
            return store.scan(kname(op[1]), kname(op[2]) if op[2] < n else "~")
        return _sync_gen(lambda: store.size)

    def fmt(op, res):
        if op[0] == "put":
            return "ok"
        if op[0] == "del":
            return "T" if res else "F"
        if op[0] == "get":
            return cellstr(res)
        if op[0] == "scan":
            return ",".join(f"{kidx(k)}={vtok(v)}" for k, v in res) or "."
        return str(res)

    rec = _run(case, store, [], make_gen, fmt)
    return rec, store_lines(spec, store, n)


LEVELS = {"rc": "READ_COMMITTED", "si": "SNAPSHOT_ISOLATION", "ser": "SERIALIZABLE"}


def run_txn(case):
    from happysimulator.components.storage.transaction_manager import IsolationLevel, TransactionManager

    spec = case["store"]
    store = make_store(spec, case.get("lat", {}))
    n = case["nkeys"]
    for k, v in case["init"]:
        store.put_sync(kname(k), v)
    tm = TransactionManager("tm", store=store, isolation=IsolationLevel.SERIALIZABLE)
    txs = {}

    def make_gen(op):
        slot = op[1]
        if op[0] == "begin":
            if slot in txs:
                return None

            def g():
                tx = yield from tm.begin(IsolationLevel[LEVELS[op[2]]])
                txs[slot] = tx
                return tx.tx_id
            txs[slot] = None
            return g()
        tx = txs.get(slot)
        if tx is None:
            return None
        if op[0] == "abort":
            return _sync_gen(tx.abort)
        if not tx.is_active:      # read/write/commit on a finished transaction raise RuntimeError; scripts skip them
            return None
        if op[0] == "read":
            return tx.read(kname(op[2]))
        if op[0] == "write":
            return tx.write(kname(op[2]), op[3])
        return tx.commit()

    def fmt(op, res):
        if op[0] == "begin":
            return str(res)
        if op[0] == "read":
            return cellstr(res)
        if op[0] == "commit":
            return "T" if res else "F"
        return "ok"

    rec = _run(case, store, [tm], make_gen, fmt)
    st = tm.stats
    return rec, store_lines(spec, store, n) + [f"stats {st.transactions_committed} {st.transactions_aborted} {st.conflicts_detected}"]


def op_lines(rec):
    out = []
    for opid in sorted(rec.ops):
        op, b, e, r = rec.ops[opid][:4]
        out.append(f"op {opid} {b} {'x' if e is None else e} {'x' if r is None else r}")
    return out


def declared_ops(case):
    out = []
    for w, wk in enumerate(case["workers"]):
        for j, op in enumerate(wk["ops"]):
            if op[0] != "sleep":
                out.append((w * 100 + j, op))
    return out


def config_lines(case):
    fam = case["family"]
    if fam == "txn":
        spec = case["store"]
    else:
        spec = store_spec(case)
    if spec[0] == "lsm":
        body = [f"cfg {case['nkeys']} lsm {spec[1]} {spec[2]}", "strat " + " ".join(map(str, spec[3]))]
        for m, k in fp_table([kname(i) for i in range(case["nkeys"])]):
            body.append(f"fp {m} {k}")
    else:
        body = [f"cfg {case['nkeys']} " + " ".join(map(str, spec))]
    for k, v in case.get("init", []):
        body.append(f"init {k} {v}")
    for opid, op in declared_ops(case):
        body.append(f"op {opid} " + " ".join(map(str, op)))
    return body


# --------------------------------------------------------------------------- generators

SLEEPS_US = [0, 1, 2, 5, 9, 10, 11, 20, 100, 1000]


def _perm(rng, n):
    """scrambled insertion orders: strides, reversed, random, outside-in"""
    r = rng.random()
    if r < 0.35:
        stride = rng.choice([s for s in range(2, n) if _gcd(s, n) == 1] or [1])
        off = rng.randrange(n)
        return [(stride * i + off) % n for i in range(n)]
    if r < 0.5:
        return list(range(n - 1, -1, -1))
    if r < 0.6:
        out, lo, hi = [], 0, n - 1
        while lo <= hi:
            out.append(lo)
            if lo != hi:
                out.append(hi)
            lo, hi = lo + 1, hi - 1
        return out
    p = list(range(n))
    rng.shuffle(p)
    return p


def _gcd(a, b):
    while b:
        a, b = b, a % b
    return a


def gen_btree_seq(rng, tier):
    """one client: scrambled inserts that grow the tree, sweeps of overwrites (every key is overwritten while
    full nodes are being split on the way down), deletes and re-inserts, checked by gets/scans/size in between"""
    n = rng.choice([5, 6, 8, 10, 12])
    order = rng.choice([3, 3, 4, 4, 5])
    ops, v = [], 0
    rounds = rng.choice([2, 3, 4]) if tier == "quick" else rng.choice([3, 4, 6])
    for rnd in range(rounds):
        perm = _perm(rng, n)
        if rnd > 0 and rng.random() < 0.4:
            perm = perm[:rng.randrange(2, n + 1)]
        for k in perm:
            v += 1
            ops.append(["put", k, v])
            r = rng.random()
            if r < 0.35:
                ops.append(["get", k if rng.random() < 0.6 else rng.randrange(n)])
            elif r < 0.45:
                lo = rng.randrange(n)
                ops.append(["scan", lo, rng.randint(lo, n)])
            elif r < 0.5:
                ops.append(["size"])
        if rng.random() < 0.6:
            for k in rng.sample(range(n), k=rng.randrange(1, max(2, n // 2))):
                ops.append(["del", k])
                if rng.random() < 0.3:
                    ops.append(["get", k])
            ops.append(["scan", 0, n])
            ops.append(["size"])
    ops.append(["scan", 0, n])
    return {"family": "btree", "nkeys": n, "order": order, "lat": {"r": 100, "w": 200},
            "workers": [{"start": 0, "ops": ops}]}


def gen_btree_conc(rng, tier):
    """writers growing the tree while readers are inside their page-read latency (root / inner / leaf splits under a get)"""
    n = rng.choice([4, 6, 8, 10])
    order = rng.choice([3, 3, 4])
    lat = {"r": rng.choice([100, 500, 1000]), "w": rng.choice([200, 1000, 2000])}
    workers, v = [], 0
    nw = rng.choice([1, 2, 2])
    perm = _perm(rng, n)
    for w in range(nw):
        ops = []
        mine = perm[w::nw] * rng.choice([1, 2])
        for k in mine:
            if rng.random() < 0.3:
                ops.append(["sleep", rng.choice([0, 10, 250, lat["r"], lat["r"] // 2, 2 * lat["r"] + 10])])
            if rng.random() < 0.15 and v > 2:
                ops.append(["del", rng.choice(perm)])
            else:
                v += 1
                ops.append(["put", k, v])
        workers.append({"start": rng.choice([0, 0, 10, 250]), "ops": ops})
    for _ in range(rng.choice([1, 2])):
        ops = []
        for _ in range(rng.choice([4, 8, 12])):
            ops.append(["sleep", rng.choice([0, 10, 50, 250, lat["r"] // 2, lat["r"], lat["w"]])])
            r = rng.random()
            if r < 0.7:
                ops.append(["get", rng.choice(perm[:max(2, n // 2)])])
            elif r < 0.85:
                lo = rng.randrange(n)
                ops.append(["scan", lo, rng.randint(lo, n)])
            else:
                ops.append(["size"])
        workers.append({"start": rng.choice([0, lat["r"] // 2, lat["r"], 2 * lat["r"], 5 * lat["r"]]), "ops": ops})
    return {"family": "btree", "nkeys": n, "order": order, "lat": lat, "workers": workers}


def gen_kv(rng, tier):
    n = rng.choice([2, 3, 4, 5])
    lat = {"r": rng.choice([0, 100, 1000]), "w": rng.choice([0, 100, 500, 5000])}
    workers, v = [], 0
    for w in range(rng.choice([1, 2, 3])):
        ops = []
        for _ in range(rng.choice([3, 6, 10])):
            if rng.random() < 0.3:
                ops.append(["sleep", rng.choice([0, 10, 100, lat["w"], lat["r"] + 10])])
            r = rng.random()
            k = rng.randrange(n)
            if r < 0.4:
                v += 1
                ops.append(["put", k, v])
            elif r < 0.55:
                ops.append(["del", k])
            elif r < 0.9:
                ops.append(["get", k])
            else:
                ops.append(["size"])
        workers.append({"start": rng.choice([0, 0, 10, 100, 1000]), "ops": ops})
    return {"family": "kv", "nkeys": n, "lat": lat, "workers": workers}


def _lsm_strategy(rng):
    r = rng.random()
    if r < 0.4:
        return ["st", rng.choice([1, 2, 2, 3])]
    if r < 0.7:
        return ["lv", rng.choice([1, 2, 3]), rng.choice([1, 2]), rng.choice([1, 2, 3])]
    return ["fifo", rng.choice([1, 2, 3, 4])]


def _txn_store(rng, n):
    r = rng.random()
    if r < 0.36:
        return ["kv"], {"r": rng.choice([0, 1, 5, 100]), "w": 100}
    if r < 0.7:
        return ["bt", rng.choice([3, 3, 4])], {"r": rng.choice([1, 5, 100, 1000]), "w": 200}
    # LSM tree: small memtables so that commits flush and compact; reads that find nothing in the memtable pay one
    # page-read latency per SSTable whose bloom filter answers "maybe" and overlap the commits of other transactions
    return ["lsm", rng.choice([1, 1, 2, 3]), rng.choice([2, 2, 3]), _lsm_strategy(rng)], {"r": rng.choice([1, 5, 100, 1000]), "w": 200}


def gen_txn_insert(rng, n, hot, store, lat):
    """readers that began before a commit which INSERTS brand-new keys (next to overwrites of existing ones) and
    read those keys afterwards; optionally a further commit overwrites the new key again, a late reader begins
    after the insert, and a second early reader at another level re-reads everything.  Sleeps and start offsets
    are drawn so that both orders of (reader's later reads, inserting commit) occur."""
    keys = list(range(n))
    nfresh = rng.choice([1, 1, 2]) if n >= 3 else 1
    fresh = rng.sample(keys, k=nfresh)
    exist = [k for k in keys if k not in fresh]
    init = [[k, 100 + k] for k in rng.sample(exist, k=len(exist)) if k < hot or rng.random() < 0.6]
    if not init:
        init = [[exist[0], 100 + exist[0]]]
    have = [k for k, _ in init]
    val = [0]

    def nv():
        val[0] += 1
        return val[0]

    def lvl():
        r = rng.random()
        return "si" if r < 0.6 else ("ser" if r < 0.9 else "rc")

    gap = rng.choice([30, 100, 400, 2000, lat["r"] * 3 + 50])
    workers = []
    slot = 0
    # early readers
    for _ in range(rng.choice([1, 1, 2])):
        ops = [["begin", slot, lvl()]]
        if rng.random() < 0.8:
            ops.append(["read", slot, rng.choice(have)])
        if rng.random() < 0.3:
            ops.append(["read", slot, rng.choice(fresh)])          # absent before the insert as well
        ops.append(["sleep", gap + rng.choice([0, 10, 50, gap])])
        later = [rng.choice(fresh)] + rng.sample(keys, k=rng.randrange(0, min(3, n) + 1))
        rng.shuffle(later)
        for k in later:
            ops.append(["read", slot, k])
            if rng.random() < 0.3:
                ops.append(["sleep", rng.choice([0, 5, 20, gap])])
        if rng.random() < 0.25:
            ops.append(["write", slot, rng.choice(keys), nv()])
        ops.append(["commit", slot] if rng.random() < 0.85 else ["abort", slot])
        workers.append({"start": rng.choice([0, 0, 1, 5]), "ops": ops})
        slot += 1
    # the inserting transaction(s): brand-new keys, often together with an overwrite of an existing key
    t = rng.choice([5, 10, 20, gap // 2])
    ops = [["begin", slot, rng.choice(["si", "si", "ser", "rc"])]]
    ws = [rng.choice(fresh)] + [k for k in fresh if rng.random() < 0.5] + [k for k in have if rng.random() < 0.5]
    rng.shuffle(ws)
    for k in dict.fromkeys(ws):
        ops.append(["write", slot, k, nv()])
    ops += [["sleep", rng.choice([0, 5, 20])], ["commit", slot]]
    workers.append({"start": t, "ops": ops})
    slot += 1
    if rng.random() < 0.5:
        # overwrite of the newly created key by a later transaction (its prior value is the inserted one)
        ops = [["begin", slot, rng.choice(["si", "ser"])], ["write", slot, rng.choice(fresh), nv()]]
        if rng.random() < 0.3:
            ops.append(["write", slot, rng.choice(keys), nv()])
        ops += [["sleep", rng.choice([0, 5])], ["commit", slot]]
        workers.append({"start": t + rng.choice([15, 40, gap // 2 + 20, gap + 20]), "ops": ops})
        slot += 1
    if rng.random() < 0.5:
        # late reader: begins after the insert, must see it
        ops = [["begin", slot, lvl()]] + [["read", slot, k] for k in rng.sample(keys, k=rng.randrange(1, min(3, n) + 1))]
        ops.append(["commit", slot])
        workers.append({"start": t + rng.choice([40, gap, 3 * gap]), "ops": ops})
        slot += 1
    return {"family": "txn", "nkeys": n, "store": store, "init": init, "lat": lat, "workers": workers}


def gen_txn(rng, tier):
    """2–5 transactions over 2–4 hot keys (plus filler keys that make a B-tree store split under commits);
    dependency-cycle patterns (write skew, 3-cycle, lost update, long reader vs writer) with commit calls a few
    microseconds apart — inside the 10 µs commit latency — and random programs"""
    hot = rng.choice([2, 3, 3, 4])
    filler = rng.choice([0, 0, 2, 4])
    n = hot + filler
    store, lat = _txn_store(rng, n)
    # keys the store does not hold when the transactions begin: the first commit that writes one INSERTS it
    # (there is nothing to overwrite), and a transaction whose snapshot is older must keep reading "absent"
    fresh = set(rng.sample(range(hot), k=rng.choice([0, 1, 1, 2]))) if rng.random() < 0.5 else set()
    init = [[k, 100 + k] for k in rng.sample(range(n), k=n) if (k < hot and k not in fresh) or (k >= hot and rng.random() < 0.5)]
    if rng.random() < 0.22:
        return gen_txn_insert(rng, n, hot, store, lat)
    val = [0]

    def nv():
        val[0] += 1
        return val[0]

    def lvl():
        r = rng.random()
        return "ser" if r < 0.6 else ("si" if r < 0.9 else "rc")

    pat = rng.random()
    workers = []
    base = rng.choice([20, 200, 3000])
    delta = lambda: rng.choice([0, 1, 2, 5, 9, 10, 11, 20, 100])   # noqa: E731
    uni = lvl() if rng.random() < 0.7 else None
    L = lambda: uni or lvl()   # noqa: E731
    if pat < 0.3:
        # write skew / r-w cycle of length m: T_i reads key i, writes key i+1
        m = rng.choice([2, 2, 3]) if hot >= 3 else 2
        for i in range(m):
            ops = [["begin", i, L()], ["read", i, i], ["write", i, (i + 1) % m, nv()], ["sleep", base + delta()], ["commit", i]]
            if rng.random() < 0.3:
                ops.insert(2, ["read", i, (i + 1) % m])
            workers.append({"start": rng.choice([0, 0, 0, 1, 2]), "ops": ops})
    elif pat < 0.45:
        # lost update: both read and write the same key
        for i in range(2):
            workers.append({"start": rng.choice([0, 0, 1]), "ops": [
                ["begin", i, L()], ["read", i, 0], ["write", i, 0, nv()], ["sleep", base + delta()], ["commit", i]]})
    elif pat < 0.65:
        # long reader against writers committing between its reads
        ks = list(range(hot))
        rd = [["begin", 0, L()]]
        for k in ks:
            rd += [["read", 0, k], ["sleep", rng.choice([0, 5, 20, base])]]
        if rng.random() < 0.5:
            rd.append(["write", 0, rng.choice(ks) if rng.random() < 0.3 else n - 1, nv()])
        rd.append(["commit", 0])
        workers.append({"start": 0, "ops": rd})
        for i in range(1, rng.choice([2, 3])):
            ops = [["begin", i, L()]]
            for k in rng.sample(ks, k=rng.randrange(1, hot + 1)):
                ops.append(["write", i, k, nv()])
            ops += [["sleep", rng.choice([0, 5, 20])], ["commit", i]]
            workers.append({"start": rng.choice([1, 5, 10, 25, base, lat["r"] + 2]), "ops": ops})
    else:
        slot = 0
        for w in range(rng.choice([2, 3, 4])):
            ops = []
            for _ in range(1 if rng.random() < 0.7 else 2):
                if slot >= 5:
                    break
                ops.append(["begin", slot, L()])
                for _ in range(rng.choice([1, 2, 3, 4])):
                    k = rng.randrange(hot) if rng.random() < 0.85 else rng.randrange(n)
                    ops.append(["read", slot, k] if rng.random() < 0.5 else ["write", slot, k, nv()])
                    if rng.random() < 0.3:
                        ops.append(["sleep", rng.choice(SLEEPS_US)])
                ops.append(["sleep", rng.choice(SLEEPS_US)])
                ops.append(["commit", slot] if rng.random() < 0.9 else ["abort", slot])
                slot += 1
            workers.append({"start": rng.choice([0, 0, 1, 2, 5, 10, 50, 1000]), "ops": ops})
    return {"family": "txn", "nkeys": n, "store": store, "init": init, "lat": lat, "workers": workers}
