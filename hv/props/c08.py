"""C08 — queueing pipelines never lose, duplicate, misorder or strand work.

Part 1 (family `policy`): every queue policy of /repo driven by direct push/pop/peek calls.
Part 2 (family `pipe`): Queue + QueueDriver + worker (`Server`, `ShiftedServer`) inside a real
`Simulation`; the delivery schedule of the run is recorded by harness wrappers and replayed through
the Lean event-level model (GUIDE rule 8).

Part 3 (family `indus`, module `c08_indus.py`): the industrial variants RenegingQueuedResource,
PooledCycleResource, BatchProcessor, ConveyorBelt, GateController inside a real `Simulation`; item-state
partition, limits, order, no-strand and counters judged on the implementation transcript
(`HappyModel/C08/Indus.lean`), executable models in `IndusModel.lean`.

The policy operation language covers every public method of every policy: push, pop, peek, len/is_empty
(every line), statistics (every line), `DeadlineQueue.purge_expired`, and the read-only accessors
(`count_expired`/`count_valid`, `get_flow_depth`/`flow_count`/`get_flow_weight`, `is_congested`).

Part 2b (family `pipew`): the same pipeline with the `Server` built on every `ConcurrencyModel` of
`components/server/concurrency.py` (Fixed, Dynamic with set_limit/scale_up/scale_down called by a controller entity,
Weighted with per-request `metadata.weight`), judged in capacity units (`HappyModel/C08/PipeW{,Spec,Driver}.lean`,
theorems `HappyProofs/C08/PipeWProps.lean`).

Lean side: `HappyModel/C08/*`, theorems `HappyProofs/C08/Props.lean`, `HappyProofs/C08/IndusProps.lean`, `HappyProofs/C08/IndusStrand{,B}.lean`.
"""
from __future__ import annotations

import atexit
import hashlib
import json
import os
import random
import shutil
import tempfile
import time
import types
from pathlib import Path

from hv import core
from hv.props import c08_indus as indus

KINDS = ["fifo", "lifo", "prio", "deadline", "adaptive", "red", "codel", "fair", "wfq"]
HAS_STATS = {"deadline", "adaptive", "red", "codel", "fair", "wfq"}


class _It:
    __slots__ = ("id", "key", "flow")

    def __init__(self, id, key, flow):
        self.id, self.key, self.flow = id, key, flow


class _Draw:
    """stands in for the `random` module inside balking.py / red.py: the draw is an input of the case"""

    def __init__(self):
        self.value = 0.99

    def random(self):
        return self.value


def _opt(x):
    return "-" if x is None else str(x)


def build_policy(cfg, now_ref, draw):
    """real policy object from /repo for a configuration"""
    from happysimulator.components import queue_policy as qp
    from happysimulator.components.industrial import balking
    from happysimulator.components.queue_policies import adaptive_lifo, codel, deadline_queue, fair_queue, red, weighted_fair_queue
    from happysimulator.core.temporal import Instant

    kind, cap = cfg["kind"], cfg.get("cap")
    capf = float("inf") if cap is None else cap
    clock = lambda: Instant(now_ref[0])
    if kind == "fifo":
        p = qp.FIFOQueue(capacity=capf)
    elif kind == "lifo":
        p = qp.LIFOQueue(capacity=capf)
    elif kind == "prio":
        p = qp.PriorityQueue(capacity=capf, key=lambda it: it.key)
    elif kind == "deadline":
        p = deadline_queue.DeadlineQueue(get_deadline=lambda it: Instant(it.key), capacity=cap, clock_func=clock)
    elif kind == "adaptive":
        p = adaptive_lifo.AdaptiveLIFO(congestion_threshold=cfg["thr"], capacity=cap)
    elif kind == "red":
        red.random = draw
        r = cfg["red"]
        p = red.REDQueue(min_threshold=r[0], max_threshold=r[1], max_probability=r[2] / 100.0, capacity=cap, weight=0.5)
    elif kind == "codel":
        p = codel.CoDelQueue(target_delay=0.005, interval=0.1, capacity=cap, clock_func=clock)
    elif kind == "fair":
        p = fair_queue.FairQueue(get_flow_id=lambda it: it.flow, max_flows=cfg.get("maxflows"), per_flow_capacity=cfg.get("perflow"))
    elif kind == "wfq":
        ws = cfg.get("weights", [])
        p = weighted_fair_queue.WeightedFairQueue(
            get_flow_id=lambda it: it.flow, get_weight=lambda f: ws[f] if f < len(ws) else 1,
            capacity=cap, per_flow_capacity=cfg.get("perflow"))
    else:
        raise ValueError(kind)
    if cfg.get("balk") is not None:
        balking.random = draw
        p = balking.BalkingQueue(p, balk_threshold=cfg["balk"], balk_probability=cfg.get("balk_p", 100) / 100.0)
    return p


def policy_stats(cfg, pol):
    """canonical statistics list (same convention as `statsOf` in HappyModel/C08/Driver.lean)"""
    kind = cfg["kind"]
    inner = pol.inner if cfg.get("balk") is not None else pol
    out = []
    if cfg.get("balk") is not None:
        out.append(pol.balked)
    if kind in ("fifo", "lifo", "prio"):
        return out
    st = inner.stats
    if kind == "deadline":
        out += [st.enqueued, st.dequeued, st.expired, st.capacity_rejected]
    elif kind == "red":
        out += [st.enqueued, st.dequeued, st.dropped_probabilistic + st.dropped_forced, st.capacity_rejected]
    elif kind == "codel":
        out += [st.enqueued, st.dequeued, st.dropped, st.capacity_rejected]
    elif kind == "adaptive":
        out += [st.enqueued, st.dequeued_fifo, st.dequeued_lifo, st.capacity_rejected, st.mode_switches]
    elif kind == "fair":
        out += [st.enqueued, st.dequeued, st.rejected_flow_capacity, st.rejected_max_flows, st.flows_created, st.flows_removed, inner.flow_count]
    elif kind == "wfq":
        out += [st.enqueued, st.dequeued, st.rejected_capacity, st.flows_created, st.flows_removed, inner.flow_count]
    return out


def policy_accessors(cfg, inner, flow):
    """the read-only public accessors beyond len/is_empty/stats (same convention as `query` in Policy.lean)"""
    kind = cfg["kind"]
    if kind == "deadline":
        return [inner.count_expired(), inner.count_valid()]
    if kind == "fair":
        return [inner.get_flow_depth(flow), inner.flow_count]
    if kind == "wfq":
        return [inner.get_flow_depth(flow), inner.flow_count, inner.get_flow_weight(flow)]
    if kind == "adaptive":
        return [1 if inner.is_congested else 0]
    return []


def conservation_triple(cfg, stats):
    """(enqueued, dequeued, dropped-after-acceptance) from the canonical statistics list, or None"""
    kind = cfg["kind"]
    if kind not in HAS_STATS:
        return None
    s = stats[1:] if cfg.get("balk") is not None else stats
    if kind in ("deadline", "codel"):
        return (s[0], s[1], s[2])
    if kind == "adaptive":
        return (s[0], s[1] + s[2], 0)
    return (s[0], s[1], 0)


def run_policy(cfg, ops, record=False):
    """drive the real policy; returns transcript lines (and, if `record`, the ops with the oracle
    fields — RED drop decision, CoDel drop count — filled in from what the implementation did)"""
    now_ref = [0]
    draw = _Draw()
    pol = build_policy(cfg, now_ref, draw)
    inner = pol.inner if cfg.get("balk") is not None else pol
    kind = cfg["kind"]
    out, rec = [], []
    for op in ops:
        if op[0] == "push":
            _, id_, key, flow, now, d = op[:6]
            now_ref[0] = now
            draw.value = d / 100.0
            before = inner.stats.dropped_probabilistic + inner.stats.dropped_forced if kind == "red" else 0
            ok = pol.push(_It(id_, key, flow))
            after = inner.stats.dropped_probabilistic + inner.stats.dropped_forced if kind == "red" else 0
            head = f"push {1 if ok else 0}"
            rec.append(["push", id_, key, flow, now, d, after - before])
        elif op[0] == "pop":
            now_ref[0] = op[1]
            before = inner.stats.dropped if kind == "codel" else 0
            r = pol.pop()
            after = inner.stats.dropped if kind == "codel" else 0
            head = f"pop {'none' if r is None else r.id}"
            rec.append(["pop", op[1], after - before])
        elif op[0] == "peek":
            now_ref[0] = op[1]
            r = pol.peek()
            head = f"peek {'none' if r is None else r.id}"
            rec.append(["peek", op[1]])
        elif op[0] == "purge":
            # DeadlineQueue.purge_expired(); the other policies have no such method (no-op, 0)
            now_ref[0] = op[1]
            n = inner.purge_expired() if hasattr(inner, "purge_expired") else 0
            head = f"purge {n}"
            rec.append(["purge", op[1]])
        else:
            now_ref[0] = op[1]
            vals = policy_accessors(cfg, inner, op[2])
            head = "query " + (",".join(map(str, vals)) if vals else "-")
            rec.append(["query", op[1], op[2]])
        if pol.is_empty() != (len(pol) == 0):
            head += " EMPTY-FLAG-WRONG"
        st = " ".join(map(str, policy_stats(cfg, pol)))
        out.append(f"{head} {len(pol)} | {st}".strip())
    return (out, rec) if record else out


def cfg_header(cfg):
    return " ".join([cfg["kind"], _opt(cfg.get("cap")), str(cfg.get("thr", 1)), _opt(cfg.get("maxflows")),
                     _opt(cfg.get("perflow")), _opt(cfg.get("balk"))] + [str(w) for w in cfg.get("weights", [])])


def op_line(cfg, op):
    if op[0] == "push":
        _, id_, key, flow, now, d = op[:6]
        rdrop = op[6] if len(op) > 6 else 0
        coin = 1 if d < cfg.get("balk_p", 100) else 0
        return f"push {id_} {key} {flow} {now} {coin} {rdrop}"
    if op[0] == "pop":
        return f"pop {op[1]} {op[2] if len(op) > 2 else 0}"
    if op[0] == "query":
        return f"query {op[1]} {op[2]}"
    return f"{op[0]} {op[1]}"


class C08(core.Property):
    id = "C08"
    driver = "drv-c08"
    lake_targets = ["HappyProofs.C08.Props", "HappyProofs.C08.PipeWProps", "HappyProofs.C08.IndusProps", "HappyProofs.C08.IndusStrandB", "HappyProofs.C08.IndusGate", "drv-c08"]
    audit_imports = ["HappyProofs.C08.Props", "HappyProofs.C08.PipeWProps", "HappyProofs.C08.IndusProps", "HappyProofs.C08.IndusStrandB", "HappyProofs.C08.IndusGate"]
    lean_files = ["HappyModel/C08/*.lean", "HappyProofs/C08/*.lean", "HappyModel/Proto.lean", "Driver/C08.lean"]
    theorems = []
    quick_cases = 2400
    thorough_cases = 80000
    case_timeout_s = 20
    rule = ("family policy: ≤60 push/pop/peek/purge_expired/accessor operations on one real policy object (9 policies, optional balking wrapper, "
            "capacities 1–3 and unbounded, ties in priority/deadline, clock moving past deadlines, DeadlineQueue housekeeping rounds: bursts of "
            "3–12 spread deadlines, clock jump, count_expired/count_valid, purge_expired, drain; in 40% of the deadline / priority / CoDel / adaptive / FIFO "
            "cases every clock value and every time or rank key is shifted late into a long run — by 1e16, 2^53, 3e17, 1e18 or 2^63 ns (1e7–9e9 s), "
            "deadlines and ranks still 1–3 units apart — where float seconds and, past 2^53, float nanoseconds collapse neighbours); family pipe: ≤12 requests "
            "arriving at a Server/ShiftedServer in bursts on one nanosecond through forwarder chains of 0–3 hops, service "
            "times on a 0.25 s grid, concurrency 1–3, queue capacity 0–3 or unbounded, FIFO/LIFO/priority queue; family pipew: the same "
            "pipeline with the Server built on every ConcurrencyModel — FixedConcurrency, DynamicConcurrency (min 1–2, max 3–6 or unbounded, 1–6 "
            "set_limit/scale_up/scale_down calls by a controller entity at instants before, between — on and off the 0.25 s grid, also beside "
            "waiting work — and after the traffic, requested limits 0–9 so that both clamps bite; in 35% of the dynamic cases an autoscaling sequence "
            "under load: a burst of limit+1..limit+4 long requests saturates the server, the limit is lowered below the work in service and then "
            "raised to / past / far past it before, while or after some of it completes), WeightedConcurrency (pool 1–41 units, per-request "
            "metadata.weight 1–7: one common weight dividing the pool, a pool as large as all weights together, or arbitrary mixes up to pool+1 on "
            "every queue policy, where a head dequeued on one free unit is rejected-and-counted by the worker) — ≤10 requests, judged in capacity "
            "units; switches HV_C08_WEIGHT_LIFT=0 (no mixes) / HV_C08_DYN_LIFT=0 (no raises beside waiting work, for trees before d187c1c) / "
            "HV_C08_ADMIT=1 (tree with the design suggestion fixes/C08-weighted-head-admission.diff: model switch admission on); a case is "
            "non-trivial when it has a pop of a non-empty queue (policy) or a request that waited (pipe); distinct = distinct case content")
    trusted_base = [
        "hv/props/c08.py adapters (drive the real policy / Simulation objects, canonical transcript)",
        "CPython deque / heapq / OrderedDict semantics (heapq modelled as extract-minimum under (key, insert_order))",
        "balking.random / red.random replaced by a scripted draw (the draw is an input); RED's float average and CoDel's float control law are not modelled: "
        "their drop decisions are recorded from the implementation when the case is generated and passed to model and Spec as inputs",
        "pipe: delivery schedule recorded by wrapping handle_event of Queue, QueueDriver, worker adapter (public entities) and by harness source/forwarder/sink entities",
        "pipew: additionally DynamicConcurrency.set_limit (public) is wrapped to log the requested limit; scale_up/scale_down reach it through self.set_limit; "
        "the PipeW model's queue is the list specification of FIFO/LIFO/priority (part 1 proves the deque/heap models refine it); the link between the "
        "PipeWSpec judge and the PipeW model is the correspondence run (no judge-accepts-model theorem for this family)",
    ]
    assumptions = [
        "item ids in a case are distinct",
        "pipe: events at one instant are delivered in creation order, a retargeted payload keeping its creation index (engine contract, property C01); "
        "the model reports a schedule that breaks it instead of trusting it",
    ]
    hypotheses = [
        "held_le_capacity: policies constructed with `capacity`; FairQueue has no `capacity`, its bound is fair_held_le_capacity: max_flows = some F, "
        "per_flow_capacity = some P and 1 <= P (the constructor raises ValueError for per_flow_capacity < 1; with P = 0 the model, like the code's push path, "
        "would still take the first item of a fresh flow: decided counterexample in HappyProofs/C08/FairCap.lean; fair_held_le_capacity_any drops 1 <= P with bound F * max P 1)",
        "pipe theorems: Setting (repaired driver, Server worker with fixed limit, queue policy FIFO / LIFO / stable priority / deadline / "
        "adaptive LIFO / fair / weighted fair, with or without the balking wrapper; RED and CoDel excluded). The pipeline model polls the policy at clock 0 "
        "and passes coin=false: inside a pipeline run a deadline queue expires nothing and the balking wrapper refuses only what its inner policy refuses "
        "(the policy-level lemmas rel_push_len / sPush_held hold for every coin: any refused push leaves the queue unchanged and is a counted drop)",
        "item_state_partition_full / _every_event / _any_schedule: the offered item ids of the schedule (ids of its `arr` actions) are pairwise distinct "
        "(offeredIds as).Nodup — same as the assumption 'item ids in a case are distinct'; _any_schedule needs neither Setting nor Sched",
        "fifo_start_order: Setting with c.pol.kind = fifo, any limit; fifo_end_to_end: additionally concurrency limit 1 (initial state { limit := 1 })",
        "pipe theorems: Sched — every QueueDispatchedEvent is delivered after the payload it was created behind (engine FIFO tie order, C01); "
        "theorem dispatched_before_payload_breaks shows the hypothesis is necessary; the correspondence run reports any schedule violating it as a disagreement-free judge violation",
        "PipeW part A (used_eq_in_service_weight, start_takes_weight, finish_returns_weight, start_never_exceeds_limit, rejected_only_when_not_fitting, "
        "rejected_is_counted_and_takes_nothing, fitting_item_is_started): every configuration, both switches and every "
        "schedule, no hypothesis; in_service_weight_le_limit: NoLower — no set_limit call of the schedule lowers the limit (after a lowering the items "
        "already in service may exceed it, which DynamicConcurrency documents; the examples show the hypothesis is necessary)",
        "PipeW part B, the code as it is (final_dinv, item_state_partition_count, no_strand, no_waiting_item_fits): SettingD = switches admission off, wake on "
        "(/repo HEAD since d187c1c), SchedD — a QueueDispatchedEvent is delivered after its payload; no hypothesis on weights, queue policy or limit "
        "changes. C08 is read as: a request dequeued on one free unit whose weight does not fit is rejected-and-counted by the worker (fifth "
        "population `rejected`), which the statement allows because it does not confine rejection to the offer",
        "PipeW design-suggestion variant (admission_final_winv, admission_no_accepted_item_discarded, admission_item_state_partition_count, "
        "admission_no_strand, no_poll_granted_without_capacity_for_head): Setting = admission on, wake on (HEAD + fixes/C08-weighted-head-admission.diff), "
        "Sched c w0 — dispatched-after-payload; the limit is not lowered while a dequeued item is on its way to the worker; with a LIFO/priority queue "
        "every request takes the same number w0 of units (a lighter arrival behind a heavy head would wait without a notify)",
    ]
    partial_theorems = {
    }
    variants = ["repaired", "current"]

    # ------------------------------------------------------------------ generation
    def generate(self, rng: random.Random, i: int, tier: str) -> dict:
        if i % 5 == 4:
            return indus.generate(rng, i, tier)
        if i % 3 == 2:
            return pipe.generate(rng, i, tier)
        if i % 6 == 1:
            return pipew.generate(rng, i, tier)
        return self.gen_policy(rng, tier)

    def gen_policy(self, rng, tier):
        kind = rng.choice(KINDS)
        cfg = {"kind": kind}
        cap = rng.choice([None, 1, 2, 3, 3, 5])
        if kind in ("fifo", "lifo", "prio", "deadline", "adaptive", "codel", "wfq"):
            cfg["cap"] = cap
        if kind == "adaptive":
            cfg["thr"] = rng.choice([1, 2, 3, 4])
        if kind == "red":
            mn = rng.choice([0, 0, 1, 2])
            mx = mn + rng.choice([1, 2, 3])
            cfg["red"] = [mn, mx, rng.choice([10, 100])]
            cfg["cap"] = rng.choice([mx, mx + 1, 2 * mx])
        if kind == "fair":
            cfg["maxflows"] = rng.choice([None, 1, 2, 3])
            cfg["perflow"] = rng.choice([None, 1, 2, 3])
        if kind == "wfq":
            cfg["perflow"] = rng.choice([None, 1, 2, 3])
            cfg["weights"] = [rng.choice([0, 1, 1, 2, 3]) for _ in range(4)]
        if rng.random() < 0.2:
            cfg["balk"] = rng.choice([0, 1, 2, 3])
            cfg["balk_p"] = rng.choice([0, 50, 100, 100])
        if kind == "deadline" and rng.random() < 0.5:
            if cfg.get("cap") is not None and rng.random() < 0.7:
                cfg["cap"] = rng.choice([None, 6, 8, 12])
            return self.fill_oracles({"family": "policy", "cfg": cfg, "ops": self.far_future(rng, kind, self.gen_deadline_rounds(rng))})
        n = rng.choice([4, 8, 16, 30, 40])
        ops, now, nid = [], 0, 0
        nflows = rng.choice([1, 2, 3, 4])
        keys = [rng.choice([0, 1, 1, 2, 5]) for _ in range(4)]
        p_push = rng.choice([0.45, 0.55, 0.7])
        for _ in range(n):
            if kind == "deadline":
                now += rng.choice([0, 0, 1, 1, 2, 5])
            elif kind == "codel":
                now += rng.choice([0, 0, 10**6, 4 * 10**6, 6 * 10**6, 5 * 10**7, 10**8, 2 * 10**8])
            r = rng.random()
            if r < p_push:
                key = rng.choice(keys)
                if kind == "deadline":
                    key = now + rng.choice([-2, -1, 0, 0, 1, 2, 3, 7, 20, 40])
                    key = max(0, key)
                ops.append(["push", nid, key, rng.randrange(nflows), now, rng.choice([0, 49, 50, 99])])
                nid += 1
            elif r < 0.88:
                ops.append(["pop", now])
            elif r < 0.93:
                ops.append(["peek", now])
            elif kind == "deadline" and rng.random() < 0.6:
                ops.append(["purge", now])
            elif kind in ("deadline", "fair", "wfq", "adaptive"):
                ops.append(["query", now, rng.randrange(nflows + 1)])
            else:
                ops.append(["peek", now])
        case = {"family": "policy", "cfg": cfg, "ops": self.far_future(rng, kind, ops)}
        return self.fill_oracles(case)

    @staticmethod
    def far_future(rng, kind, ops):
        """late in a long run: every clock value — and every key that is a time (deadlines) or a large integer rank
        (priorities) — is shifted by 1e7 .. 1e9 s worth of nanoseconds (also 2^53 and 2^63 ns), where a float second
        count, and beyond 2^53 even a float nanosecond count, can no longer tell neighbours a few ns apart"""
        if kind not in ("deadline", "prio", "codel", "adaptive", "fifo") or rng.random() < 0.6:
            return ops
        off = rng.choice([10**16, 10**16 + 7, 2**53, 2**53 + 1, 3 * 10**17, 10**18, 2**63])
        out = []
        for op in ops:
            op = list(op)
            if op[0] == "push":
                op[4] += off
                if kind in ("deadline", "prio"):
                    op[2] += off
            elif op[0] == "query":
                op[1] += off
            else:
                op[1] += off
            out.append(op)
        return out

    @staticmethod
    def gen_deadline_rounds(rng):
        """DeadlineQueue housekeeping: rounds of (burst of pushes with deadlines spread from 'about to expire'
        to 'far away', in any order, with ties) → the clock jumps over some of the deadlines (also exactly
        onto one: `deadline == now` is still live) → accessors / purge_expired / pop-side expiry → a drain
        by pops and peeks, during which the clock may move on"""
        ops, now, nid = [], rng.choice([0, 3, 10]), 0
        for _ in range(rng.choice([1, 1, 2, 3])):
            m = rng.choice([3, 5, 7, 9, 12])
            near = [now + d for d in (0, 1, 1, 2, 3, 4)]
            far = [now + d for d in rng.sample(range(5, 120), k=rng.choice([2, 4, 8]))]
            mix = rng.choice([0.2, 0.35, 0.5])
            for _ in range(m):
                key = rng.choice(near) if rng.random() < mix else rng.choice(far)
                ops.append(["push", nid, key, 0, now, 0])
                nid += 1
                if rng.random() < 0.1:
                    ops.append(["pop", now])
            now += rng.choice([1, 2, 3, 4, 5, 6])
            if rng.random() < 0.4:
                ops.append(["query", now, 0])
            if rng.random() < 0.75:
                ops.append(["purge", now])
            if rng.random() < 0.3:
                ops.append(["query", now, 0])
            for _ in range(rng.choice([1, 2, m // 2, m, m + 2])):
                r = rng.random()
                if r < 0.12:
                    ops.append(["peek", now])
                elif r < 0.2:
                    now += rng.choice([1, 3, 30])
                    ops.append(["purge", now])
                ops.append(["pop", now])
        return ops

    def fill_oracles(self, case):
        """RED drop decisions / CoDel drop counts are inputs of the model: record what the real policy did"""
        if case.get("family") != "policy":
            return case
        try:
            _, rec = run_policy(case["cfg"], case["ops"], record=True)
        except Exception:
            return case
        c = dict(case)
        c["ops"] = rec
        return c

    # ------------------------------------------------------------------ implementation
    def run_impl(self, case):
        if case["family"] == "indus":
            return indus.run_impl(case)
        if case["family"] == "pipe":
            return pipe.run_impl(case)
        if case["family"] == "pipew":
            return pipew.run_impl(case)
        return run_policy(case["cfg"], case["ops"])

    # ------------------------------------------------------------------ model / judge
    def model_block(self, case, variant):
        if case["family"] == "indus":
            return indus.model_block(case, variant)
        if case["family"] == "pipe":
            return pipe.model_block(case, variant)
        if case["family"] == "pipew":
            return pipew.model_block(case, variant)
        cfg = case["cfg"]
        return ("policy " + cfg_header(cfg), [op_line(cfg, op) for op in case["ops"]])

    def evaluate_hook(self, case, impl_out):
        return None

    def judge_block(self, case, impl_out):
        if impl_out and impl_out[0].startswith("IMPL-"):
            return None
        if case["family"] == "indus":
            return indus.judge_block(case, impl_out)
        if case["family"] == "pipe":
            return pipe.judge_block(case, impl_out)
        if case["family"] == "pipew":
            return pipew.judge_block(case, impl_out)
        cfg = case["cfg"]
        if len(impl_out) != len(case["ops"]):
            return None
        body = []
        for op, line in zip(case["ops"], impl_out):
            left, _, right = line.partition("|")
            t = left.split()
            stats = [int(x) for x in right.split()]
            tri = conservation_triple(cfg, stats)
            body.append(op_line(cfg, op))
            body.append(f"obs {t[1]} {t[-1]}" + ("" if tri is None else f" {tri[0]} {tri[1]} {tri[2]}"))
        return ("judge-policy " + cfg_header(cfg), body)

    def nontrivial_key(self, case, impl_out):
        if case["family"] == "indus":
            return indus.nontrivial_key(case, impl_out)
        if case["family"] == "pipe":
            return pipe.nontrivial_key(case, impl_out)
        if case["family"] == "pipew":
            return pipew.nontrivial_key(case, impl_out)
        for line in impl_out:
            if line.startswith("pop ") and not line.startswith("pop none"):
                return json.dumps(case, sort_keys=True)
        return None

    def shrink(self, case):
        if case["family"] == "indus":
            yield from indus.shrink(case)
            return
        if case["family"] == "pipe":
            yield from pipe.shrink(case)
            return
        if case["family"] == "pipew":
            yield from pipew.shrink(case)
            return
        xs = case["ops"]
        n = len(xs)
        step = max(1, n // 2)
        while step >= 1:
            for i in range(0, n, step):
                cand = dict(case)
                cand["ops"] = xs[:i] + xs[i + step:]
                if len(cand["ops"]) < n:
                    yield self.fill_oracles(cand)
            step //= 2

    def mutate(self, case, rng):
        if case["family"] == "indus":
            return indus.mutate(case, rng)
        if case["family"] == "pipe":
            return pipe.mutate(case, rng)
        if case["family"] == "pipew":
            return pipew.mutate(case, rng)
        xs = [list(x) for x in case["ops"]]
        if not xs:
            return case
        for _ in range(rng.randint(1, 3)):
            i = rng.randrange(len(xs))
            k = rng.random()
            if k < 0.3 and len(xs) > 1:
                del xs[i]
            elif k < 0.6:
                now = xs[i][4] if xs[i][0] == "push" else xs[i][1]
                xs.insert(i, ["pop", now])
            else:
                j = rng.randrange(len(xs))
                xs[i], xs[j] = xs[j], xs[i]
        c = dict(case)
        c["ops"] = xs
        return self.fill_oracles(c)


# --------------------------------------------------------------------------- part 2 (pipe)
# Transcripts of engine runs travel from the forked implementation workers to the parent (which
# builds the model block from the schedule they contain) through a per-run scratch directory:
# `Property.model_block` does not receive the implementation output.
_ROOT_PID = os.getpid()
_CACHE_DIR = Path(tempfile.gettempdir()) / f"hv-c08-{os.getuid()}" / f"{_ROOT_PID}-{time.time_ns()}"
_MEM: dict = {}
Q = 250_000_000          # time grid: quarter seconds, exactly representable as float seconds
END_S = 1000.0
MAX_LINES = 4000


def _cleanup():
    if os.getpid() == _ROOT_PID:
        shutil.rmtree(_CACHE_DIR, ignore_errors=True)


atexit.register(_cleanup)


def _key(case):
    return hashlib.sha256(json.dumps(case, sort_keys=True).encode()).hexdigest()


def _store(case, out):
    k = _key(case)
    _MEM[k] = out
    try:
        _CACHE_DIR.mkdir(parents=True, exist_ok=True)
        tmp = _CACHE_DIR / f"{k}.{os.getpid()}.tmp"
        tmp.write_text("\n".join(out))
        tmp.replace(_CACHE_DIR / f"{k}.txt")
    except OSError:
        pass


def _impl_out(case):
    k = _key(case)
    if k in _MEM:
        return _MEM[k]
    p = _CACHE_DIR / f"{k}.txt"
    if p.exists():
        out = p.read_text().split("\n")
        _MEM[k] = out
        return out
    out = core.run_impl_safe(PROPERTY, case)
    _MEM[k] = out
    return out


def pipe_limit0(case):
    if case["worker"] == "server":
        return case["limit"]
    for st, en, cap in sorted(case.get("shifts", [])):
        if st <= 0 < en:
            return cap
    return case.get("default_cap", 0)


def pipe_generate(rng, i, tier):
    worker = "shifted" if rng.random() < 0.3 else "server"
    kind = rng.choice(["fifo", "fifo", "fifo", "lifo", "prio"])
    cap = rng.choice([None, None, None, 0, 1, 2, 3])
    n = rng.choice([1, 2, 3, 4, 6, 8, 12])
    svc_pool = rng.choice([[4], [1, 2, 4], [0, 1, 4], [2], [1]])
    bases = sorted(rng.sample(range(0, 25), k=rng.choice([1, 2, 3])))
    reqs = []
    for _ in range(n):
        r = rng.random()
        if r < 0.5 or not reqs:
            t = rng.choice(bases)
        elif r < 0.85:
            # land exactly on a completion instant of an earlier request
            t = rng.choice(reqs)[0] + rng.choice(svc_pool) * rng.choice([1, 1, 2])
        else:
            t = rng.choice(reqs)[0] + rng.choice([0, 1])
        reqs.append([t, rng.choice([0, 0, 1, 1, 2, 3]), rng.choice([0, 1, 1, 2])])
    case = {"family": "pipe", "worker": worker, "policy": {"kind": kind, "cap": cap}, "reqs": reqs}
    if worker == "server":
        case["limit"] = rng.choice([1, 1, 2, 3])
        case["svcs"] = [rng.choice(svc_pool) for _ in range(n)]
    else:
        case["svc"] = rng.choice([1, 2, 4])
        case["default_cap"] = rng.choice([0, 0, 1, 2])
        shifts, t = [], rng.choice([0, 0, 2, 4])
        for _ in range(rng.choice([1, 2, 3])):
            ln = rng.choice([2, 4, 8, 16])
            shifts.append([t, t + ln, rng.choice([0, 1, 2, 2, 3])])
            t += ln + rng.choice([0, 0, 4])
        case["shifts"] = shifts
    return case


def pipe_run_impl(case):
    from happysimulator.components.industrial.shift_schedule import Shift, ShiftedServer, ShiftSchedule
    from happysimulator.components.queue import QueueDeliverEvent, QueueNotifyEvent, QueuePollEvent
    from happysimulator.components.queue_policy import FIFOQueue, LIFOQueue, PriorityQueue
    from happysimulator.components.server.server import Server
    from happysimulator.core.entity import Entity
    from happysimulator.core.event import Event
    from happysimulator.core.simulation import Simulation
    from happysimulator.core.temporal import Duration, Instant
    from happysimulator.distributions.latency_distribution import LatencyDistribution

    pol = case["policy"]
    capf = float("inf") if pol["cap"] is None else pol["cap"]
    tag_of = lambda ev: ev.context["metadata"]["tag"]
    if pol["kind"] == "fifo":
        policy = FIFOQueue(capacity=capf)
    elif pol["kind"] == "lifo":
        policy = LIFOQueue(capacity=capf)
    else:
        policy = PriorityQueue(capacity=capf, key=lambda ev: ev.context["metadata"]["key"])

    class Seq(LatencyDistribution):
        def __init__(self, qs):
            super().__init__(1.0)
            self.qs, self.k = qs, 0

        def get_latency(self, now):
            v = self.qs[self.k % len(self.qs)]
            self.k += 1
            return Duration(v * Q)

    class Sink(Entity):
        def handle_event(self, ev):
            return []

    class Fwd(Entity):
        def __init__(self, name, nxt):
            super().__init__(name)
            self.nxt = nxt

        def handle_event(self, ev):
            return [self.forward(ev, self.nxt)]

    sink = Sink("sink")
    if case["worker"] == "server":
        srv = Server("srv", concurrency=case["limit"], service_time=Seq(case["svcs"]), queue_policy=policy, downstream=sink)
    else:
        sched = ShiftSchedule([Shift(a * 0.25, b * 0.25, c) for a, b, c in case["shifts"]], default_capacity=case.get("default_cap", 0))
        srv = ShiftedServer("srv", sched, service_time=case["svc"] * 0.25, downstream=sink, policy=policy)
    shifted = case["worker"] == "shifted"
    log, inflight = [], [0]

    def counters():
        if shifted:
            return f"{srv.depth} {srv.stats_accepted} {srv.stats_dropped} {inflight[0]} {srv.processed} 0 {srv.current_capacity}"
        st = srv.stats
        return f"{srv.depth} {srv.stats_accepted} {srv.stats_dropped} {srv.active_requests} {st.requests_completed} {st.requests_rejected} {srv.concurrency}"

    def emit(action, res):
        if len(log) > MAX_LINES:
            raise RuntimeError("delivery watchdog")
        log.append(f"{srv.now.nanoseconds} {action} -> {res} | {counters()}")

    def has(evs, cls):
        return any(isinstance(e, cls) for e in (evs or []))

    res_handle, q_handle, d_handle, work = srv.handle_event, srv.queue.handle_event, srv.driver.handle_event, srv.handle_queued_event

    def on_resource(ev):
        if ev.event_type == "_ShiftChange":
            out = res_handle(ev)
            emit(f"shift {srv.current_capacity}", "poll" if has(out, QueueNotifyEvent) else "idle")
            return out
        before = srv.stats_accepted
        out = res_handle(ev)
        emit(f"arr {tag_of(ev)} {ev.context['metadata']['key']}", 1 if srv.stats_accepted > before else 0)
        return out

    def on_queue(ev):
        out = q_handle(ev)
        if isinstance(ev, QueuePollEvent):
            got = [e for e in (out or []) if isinstance(e, QueueDeliverEvent) and e.payload is not None]
            emit("poll", tag_of(got[0].payload) if got else "none")
        return out

    def on_driver(ev):
        if isinstance(ev, QueueNotifyEvent):
            out = d_handle(ev)
            emit("notify", "poll" if has(out, QueuePollEvent) else "idle")
        elif isinstance(ev, QueueDeliverEvent):
            tag = None if ev.payload is None else tag_of(ev.payload)
            out = d_handle(ev)
            if tag is None:
                emit("deliver none", "poll" if has(out, QueuePollEvent) else "idle")
            else:
                emit(f"deliver {tag}", "-")
        elif ev.event_type == "QUEUE_DISPATCHED":
            out = d_handle(ev)
            emit("disp", "poll" if has(out, QueuePollEvent) else "idle")
        else:
            out = d_handle(ev)
        return out

    def on_work(ev):
        tag = tag_of(ev)
        gen = work(ev)

        def traced():
            try:
                v = next(gen)
            except StopIteration as e:
                emit(f"work {tag}", "reject")
                return e.value
            inflight[0] += 1
            emit(f"work {tag}", "start")
            while True:
                sent = yield v
                try:
                    v = gen.send(sent)
                except StopIteration as e:
                    inflight[0] -= 1
                    emit(f"fin {tag}", "-")
                    return e.value

        return traced()

    srv.handle_event = on_resource
    srv.queue.handle_event = on_queue
    srv.driver.handle_event = on_driver
    srv.handle_queued_event = on_work

    chains = [srv]
    for h in range(1, 4):
        chains.append(Fwd(f"fwd{h}", chains[-1]))
    sim = Simulation(entities=[srv, sink] + chains[1:], end_time=Instant.from_seconds(END_S))
    evs = []
    for i, (t, hops, key) in enumerate(case["reqs"]):
        ev = Event(time=Instant(t * Q), event_type="REQ", target=chains[hops])
        ev.add_context("tag", i)
        ev.add_context("key", key)
        evs.append(ev)
    sim.schedule(evs)
    sim.run()
    _store(case, log)
    return log


def pipe_header(case, variant):
    pol = case["policy"]
    return f"{variant} {case['worker']} {pipe_limit0(case)} {pol['kind']} {_opt(pol['cap'])}"


def pipe_model_block(case, variant):
    impl = _impl_out(case)
    if impl and impl[0].startswith("IMPL-"):
        return ("pipe " + pipe_header(case, variant), [])
    return ("pipe " + pipe_header(case, variant), [l.split(" -> ")[0] for l in impl if l])


def pipe_judge_block(case, impl_out):
    return ("judge-pipe " + pipe_header(case, "repaired"), [l for l in impl_out if l])


def pipe_nontrivial_key(case, impl_out):
    arr = {}
    for l in impl_out:
        t = l.split()
        if len(t) < 3:
            continue
        if t[1] == "arr":
            arr[t[2]] = t[0]
        elif t[1] == "work" and arr.get(t[2]) not in (None, t[0]):
            return json.dumps(case, sort_keys=True)
    return None


def pipe_shrink(case):
    reqs = case["reqs"]
    for i in range(len(reqs)):
        c = dict(case)
        c["reqs"] = reqs[:i] + reqs[i + 1:]
        if c["reqs"]:
            yield c
    for i, r in enumerate(reqs):
        if r[1] > 0:
            c = dict(case)
            c["reqs"] = reqs[:i] + [[r[0], r[1] - 1, r[2]]] + reqs[i + 1:]
            yield c
    if case["worker"] == "shifted" and len(case.get("shifts", [])) > 1:
        for i in range(len(case["shifts"])):
            c = dict(case)
            c["shifts"] = case["shifts"][:i] + case["shifts"][i + 1:]
            yield c
    if case["policy"]["kind"] != "fifo":
        c = dict(case)
        c["policy"] = dict(case["policy"], kind="fifo")
        yield c


def pipe_mutate(case, rng):
    c = json.loads(json.dumps(case))
    reqs = c["reqs"]
    for _ in range(rng.randint(1, 3)):
        i = rng.randrange(len(reqs))
        k = rng.random()
        if k < 0.3:
            reqs[i][1] = rng.choice([0, 1, 2, 3])
        elif k < 0.6:
            reqs[i][0] = rng.choice(reqs)[0] + rng.choice([0, 1, 2, 4])
        elif k < 0.8 and len(reqs) < 12:
            reqs.append([rng.choice(reqs)[0] + rng.choice([0, 4]), rng.choice([0, 1, 2]), rng.choice([0, 1, 2])])
            if "svcs" in c:
                c["svcs"].append(rng.choice(c["svcs"]))
        elif c["worker"] == "server":
            c["limit"] = rng.choice([1, 2, 3])
    return c


pipe = types.SimpleNamespace(generate=pipe_generate, run_impl=pipe_run_impl, model_block=pipe_model_block,
                             judge_block=pipe_judge_block, nontrivial_key=pipe_nontrivial_key,
                             shrink=pipe_shrink, mutate=pipe_mutate)

# --------------------------------------------------------------------------- part 2b (pipew)
# `Server` over every ConcurrencyModel of components/server/concurrency.py, judged in capacity units
# (model `HappyModel/C08/PipeW.lean`, judge `PipeWSpec.lean`).
#
# Three independent switches (environment, read once):
#   HV_C08_WEIGHT_LIFT (default "1")  weighted pools get arbitrary weight mixes up to capacity+1 on every queue policy.
#       /repo dequeues the head on `has_capacity()` = one free unit; when `acquire(weight)` then fails the Server
#       rejects the request and counts it in `requests_rejected`.  The coordinator's reading of C08: that is a
#       rejected-and-counted outcome (the statement does not confine rejection to the offer), so the model mirrors it
#       and the judge checks that it is counted, justified (the item really does not fit) and free of charge.
#       "0" = only pools where it cannot happen (one common weight dividing the pool, or a pool as large as all weights).
#   HV_C08_DYN_LIFT (default "1")  DynamicConcurrency limits are raised at any instant, also beside waiting work
#       (repaired in /repo by d187c1c: the Server notifies its driver).  "0" = raises only while nothing can wait,
#       for trees without that commit.
#   HV_C08_ADMIT (default "0")  "1" = the tree carries the design suggestion fixes/C08-weighted-head-admission.diff:
#       model switch `admission` on (a non-fitting head stays queued, nothing is rejected after dequeue); LIFO / priority
#       pools then keep a common weight (a lighter arrival behind a heavy head gets no notify) and limits are only
#       lowered off the arrival/completion grid.
W_LIFT = os.environ.get("HV_C08_WEIGHT_LIFT", "1") == "1"
DYN_LIFT = os.environ.get("HV_C08_DYN_LIFT", "1") == "1"
ADMISSION = os.environ.get("HV_C08_ADMIT", "0") == "1"
HALF = Q // 2           # controller instants: odd multiples are off the arrival/completion grid


def _clamp(lo, hi, n):
    n = max(lo, n)
    return n if hi is None else min(hi, n)


def pipew_limits(case):
    """static evolution of the dynamic limit: [(t_half, kind, arg, requested, old, new)] in call order"""
    lim, out = case["limit"], []
    for t2, op, n in sorted(case.get("ctl", []), key=lambda x: x[0]):
        req = n if op == "set" else lim + n if op == "up" else lim - n
        new = _clamp(case["lo"], case["hi"], req)
        out.append((t2, op, n, req, lim, new))
        lim = new
    return out


def pipew_generate(rng, i, tier):
    conc = rng.choice(["weighted", "weighted", "weighted", "dynamic", "dynamic", "fixed"])
    kind = rng.choice(["fifo", "fifo", "fifo", "lifo", "prio"])
    cap = rng.choice([None, None, None, 0, 1, 2, 3])
    n = rng.choice([1, 2, 3, 4, 6, 8, 10])
    svc_pool = rng.choice([[4], [1, 2, 4], [0, 1, 4], [2], [1]])
    bases = sorted(rng.sample(range(2, 25), k=rng.choice([1, 2, 3])))
    reqs = []
    for _ in range(n):
        r = rng.random()
        if r < 0.5 or not reqs:
            t = rng.choice(bases)
        elif r < 0.85:
            t = rng.choice(reqs)[0] + rng.choice(svc_pool) * rng.choice([1, 1, 2])
        else:
            t = rng.choice(reqs)[0] + rng.choice([0, 1])
        reqs.append([t, rng.choice([0, 0, 1, 1, 2, 3]), rng.choice([0, 1, 1, 2]), 1])
    case = {"family": "pipew", "conc": conc, "policy": {"kind": kind, "cap": cap}, "reqs": reqs,
            "svcs": [rng.choice(svc_pool) for _ in range(n)], "lo": 1, "hi": None, "ctl": []}
    if conc == "weighted":
        style = rng.choice(["common", "ample", "mixed", "mixed"]) if W_LIFT else rng.choice(["common", "common", "ample"])
        if style == "common":
            w = rng.choice([1, 2, 2, 3, 5])
            case["limit"] = w * rng.choice([1, 1, 2, 3])
            for r in reqs:
                r[3] = w
        elif style == "ample":
            for r in reqs:
                r[3] = rng.choice([1, 2, 3, 4])
            case["limit"] = sum(r[3] for r in reqs) + rng.choice([0, 0, 1])
        else:
            case["limit"] = rng.choice([1, 2, 3, 4, 6])
            top = case["limit"] + (1 if rng.random() < 0.25 else 0)
            for r in reqs:
                r[3] = rng.choice([1, 1, 2, 3, top, max(1, top - 1)])
                r[3] = min(r[3], top)
    else:
        # Fixed / Dynamic ignore the weight the requests carry
        for r in reqs:
            r[3] = rng.choice([1, 1, 2, 3])
        case["limit"] = rng.choice([1, 1, 2, 3])
    if conc == "dynamic":
        case["lo"] = rng.choice([1, 1, 2])
        case["hi"] = rng.choice([None, 3, 4, 6])
        case["limit"] = max(case["lo"], case["limit"])
        if case["hi"] is not None:
            case["hi"] = max(case["hi"], case["limit"])
        first = 2 * min(r[0] for r in reqs)
        quiet = 2 * (max(r[0] for r in reqs) + sum(case["svcs"]) + 2)
        ctl = []
        for _ in range(rng.choice([1, 2, 3, 4, 6])):
            op = rng.choice(["set", "up", "down", "down", "up"])
            arg = rng.choice([0, 1, 2, 3, 5, 9]) if op == "set" else rng.choice([1, 1, 2, 4])
            where = rng.random()
            if where < 0.25:
                t2 = 2 * rng.choice(reqs)[0] + rng.choice([1, 1, 3, 5])         # shortly after an arrival: likely beside waiting work
                if rng.random() < 0.7:
                    op, arg = "up", rng.choice([1, 1, 2])
            elif where < 0.5:
                t2 = 2 * rng.randrange(first // 2, quiet // 2 + 1) + 1          # off the grid, inside the busy stretch
            elif where < 0.65:
                t2 = rng.randrange(0, max(1, first))                            # before the first arrival
            elif where < 0.8:
                t2 = quiet + rng.choice([1, 2, 3, 8])                           # after the last possible finish
            else:
                t2 = 2 * (rng.choice(reqs)[0] + rng.choice([0, 1, 2, 4]))       # on the grid: beside arrivals / completions
            ctl.append([t2, op, arg])
        case["ctl"] = ctl
        if DYN_LIFT and rng.random() < 0.35:
            # autoscaling under load: a burst saturates the server and leaves a backlog, the limit is lowered below
            # the work in service (it keeps running: active > limit), then raised — to / past / far past what is in
            # service — before, while or after some of it completes
            L = rng.choice([2, 3, 3, 4])
            t0 = rng.choice(bases)
            burst = L + rng.choice([1, 2, 4])
            case["limit"], case["lo"] = L, min(L - 1, rng.choice([1, 1, 2]))
            case["hi"] = rng.choice([None, None, L + 1, 9])
            case["reqs"] = [[t0, rng.choice([0, 0, 1]), rng.choice([0, 1, 2]), 1] for _ in range(burst)] + reqs[:2]
            long = rng.choice([4, 8])
            case["svcs"] = [rng.choice([long, long, long // 2]) for _ in range(burst)] + case["svcs"][:2]
            down = rng.randint(case["lo"], L - 1)
            up = rng.choice([L - 1, L, L + 1, L + 2, 9])
            t_dn = 2 * t0 + rng.choice([1, 2, 3])
            t_up = t_dn + rng.choice([0, 1, 2, long, 2 * long - 1, 2 * long, 2 * long + 1])
            seq = [[t_dn, rng.choice(["set", "set", "down"]), down if rng.random() < 0.8 else L - down],
                   [t_up, "set", up]]
            if rng.random() < 0.3:
                seq.append([t_up + rng.choice([1, 2, long]), rng.choice(["up", "set"]), rng.choice([1, 2, 9])])
            case["ctl"] = seq + (ctl[:1] if rng.random() < 0.3 else [])
    return pipew_norm(case)


def pipew_norm(case):
    """bring a case inside what the switches allow (see W_LIFT / DYN_LIFT / ADMISSION)"""
    c = dict(case)
    if case["conc"] == "weighted":
        ws = {r[3] for r in case["reqs"]}
        common = len(ws) == 1 and case["limit"] % next(iter(ws)) == 0
        if not W_LIFT and not common:
            c["limit"] = max(case["limit"], sum(r[3] for r in case["reqs"]))
        elif ADMISSION and len(ws) > 1 and case["policy"]["kind"] != "fifo":
            c["policy"] = dict(case["policy"], kind="fifo")
        return c
    if case["conc"] != "dynamic" or not case.get("ctl"):
        return c
    first = 2 * min(r[0] for r in case["reqs"])
    quiet = 2 * (max(r[0] for r in case["reqs"]) + sum(case["svcs"]) + 2)
    keep = [list(x) for x in case["ctl"]]
    while True:
        c["ctl"] = keep
        bad = [[t2, op, n] for t2, op, n, _req, old, new in pipew_limits(c)
               if (not DYN_LIFT and new > old and first <= t2 < quiet)      # a raise while a request may be waiting
               or ((ADMISSION or not DYN_LIFT) and new < old and t2 % 2 == 0)]  # a lowering beside a granted poll
        if not bad:
            return c
        keep.remove(bad[0])


def pipew_run_impl(case):
    from happysimulator.components.queue import QueueDeliverEvent, QueueNotifyEvent, QueuePollEvent
    from happysimulator.components.queue_policy import FIFOQueue, LIFOQueue, PriorityQueue
    from happysimulator.components.server.concurrency import DynamicConcurrency, FixedConcurrency, WeightedConcurrency
    from happysimulator.components.server.server import Server
    from happysimulator.core.entity import Entity
    from happysimulator.core.event import Event
    from happysimulator.core.simulation import Simulation
    from happysimulator.core.temporal import Duration, Instant
    from happysimulator.distributions.latency_distribution import LatencyDistribution

    pol = case["policy"]
    capf = float("inf") if pol["cap"] is None else pol["cap"]
    md = lambda ev: ev.context["metadata"]
    tag_of = lambda ev: md(ev)["tag"]
    if pol["kind"] == "fifo":
        policy = FIFOQueue(capacity=capf)
    elif pol["kind"] == "lifo":
        policy = LIFOQueue(capacity=capf)
    else:
        policy = PriorityQueue(capacity=capf, key=lambda ev: md(ev)["key"])
    if case["conc"] == "fixed":
        model = FixedConcurrency(case["limit"])
    elif case["conc"] == "dynamic":
        model = DynamicConcurrency(initial=case["limit"], min_limit=case["lo"], max_limit=case["hi"])
    else:
        model = WeightedConcurrency(total_capacity=case["limit"])

    class Seq(LatencyDistribution):
        def __init__(self, qs):
            super().__init__(1.0)
            self.qs, self.k = qs, 0

        def get_latency(self, now):
            v = self.qs[self.k % len(self.qs)]
            self.k += 1
            return Duration(v * Q)

    class Sink(Entity):
        def handle_event(self, ev):
            return []

    class Fwd(Entity):
        def __init__(self, name, nxt):
            super().__init__(name)
            self.nxt = nxt

        def handle_event(self, ev):
            return [self.forward(ev, self.nxt)]

    class Ctl(Entity):
        """autoscaling controller: calls the public DynamicConcurrency methods at scripted instants"""

        def handle_event(self, ev):
            op, n = md(ev)["op"], md(ev)["n"]
            if op == "set":
                model.set_limit(n)
            elif op == "up":
                model.scale_up(n)
            else:
                model.scale_down(n)
            return []

    sink, ctl = Sink("sink"), Ctl("ctl")
    srv = Server("srv", concurrency=model, service_time=Seq(case["svcs"]), queue_policy=policy, downstream=sink)
    log = []

    def counters():
        st = srv.stats
        return (f"{srv.depth} {srv.stats_accepted} {srv.stats_dropped} {srv.active_requests} {st.requests_completed} "
                f"{st.requests_rejected} {srv.concurrency} {srv.available_capacity}")

    def emit(action, res):
        if len(log) > MAX_LINES:
            raise RuntimeError("delivery watchdog")
        log.append(f"{srv.now.nanoseconds} {action} -> {res} | {counters()}")

    def has(evs, cls):
        return any(isinstance(e, cls) for e in (evs or []))

    res_handle, q_handle, d_handle, work = srv.handle_event, srv.queue.handle_event, srv.driver.handle_event, srv.handle_queued_event

    def on_resource(ev):
        before = srv.stats_accepted
        out = res_handle(ev)
        emit(f"arr {tag_of(ev)} {md(ev)['key']} {md(ev).get('weight', 1)}", 1 if srv.stats_accepted > before else 0)
        return out

    def on_queue(ev):
        out = q_handle(ev)
        if isinstance(ev, QueuePollEvent):
            got = [e for e in (out or []) if isinstance(e, QueueDeliverEvent) and e.payload is not None]
            emit("poll", tag_of(got[0].payload) if got else "none")
        return out

    def on_driver(ev):
        if isinstance(ev, QueueNotifyEvent):
            out = d_handle(ev)
            emit("notify", "poll" if has(out, QueuePollEvent) else "idle")
        elif isinstance(ev, QueueDeliverEvent):
            tag = None if ev.payload is None else tag_of(ev.payload)
            out = d_handle(ev)
            if tag is None:
                emit("deliver none", "poll" if has(out, QueuePollEvent) else "idle")
            else:
                emit(f"deliver {tag}", "-")
        elif ev.event_type == "QUEUE_DISPATCHED":
            out = d_handle(ev)
            emit("disp", "poll" if has(out, QueuePollEvent) else "idle")
        else:
            out = d_handle(ev)
        return out

    def on_work(ev):
        tag, w = tag_of(ev), md(ev).get("weight", 1)
        gen = work(ev)

        def traced():
            try:
                v = next(gen)
            except StopIteration as e:
                emit(f"work {tag} {w}", "reject")
                return e.value
            emit(f"work {tag} {w}", "start")
            while True:
                sent = yield v
                try:
                    v = gen.send(sent)
                except StopIteration as e:
                    emit(f"fin {tag}", "-")
                    return e.value

        return traced()

    srv.handle_event = on_resource
    srv.queue.handle_event = on_queue
    srv.driver.handle_event = on_driver
    srv.handle_queued_event = on_work
    if case["conc"] == "dynamic":
        set_limit = model.set_limit

        def on_set_limit(n):
            set_limit(n)
            emit(f"limit {max(0, n)}", "-")

        model.set_limit = on_set_limit

    chains = [srv]
    for h in range(1, 4):
        chains.append(Fwd(f"fwd{h}", chains[-1]))
    sim = Simulation(entities=[srv, sink, ctl] + chains[1:], end_time=Instant.from_seconds(END_S))
    evs = []
    for i, (t, hops, key, w) in enumerate(case["reqs"]):
        ev = Event(time=Instant(t * Q), event_type="REQ", target=chains[hops])
        ev.add_context("tag", i)
        ev.add_context("key", key)
        ev.add_context("weight", w)
        evs.append(ev)
    for t2, op, n in sorted(case.get("ctl", []), key=lambda x: x[0]):
        ev = Event(time=Instant(t2 * HALF), event_type="CTL", target=ctl)
        ev.add_context("op", op)
        ev.add_context("n", n)
        evs.append(ev)
    sim.schedule(evs)
    sim.run()
    _store(case, log)
    return log


def pipew_header(case, variant):
    pol = case["policy"]
    wake = "1" if variant == "repaired" else "0"       # "current" = a tree without d187c1c
    return (f"{wake} {'1' if ADMISSION else '0'} {case['conc']} {case.get('lo', 1)} {_opt(case.get('hi'))} {case['limit']} "
            f"{pol['kind']} {_opt(pol['cap'])}")


def pipew_model_block(case, variant):
    impl = _impl_out(case)
    if impl and impl[0].startswith("IMPL-"):
        return ("pipew " + pipew_header(case, variant), [])
    return ("pipew " + pipew_header(case, variant), [l.split(" -> ")[0] for l in impl if l])


def pipew_judge_block(case, impl_out):
    return ("judge-pipew " + pipew_header(case, "repaired"), [l for l in impl_out if l])


def pipew_shrink(case):
    for c in _pipew_shrink(case):
        c = pipew_norm(c)
        if c != case:
            yield c


def _pipew_shrink(case):
    reqs = case["reqs"]
    for i in range(len(reqs)):
        c = dict(case)
        c["reqs"] = reqs[:i] + reqs[i + 1:]
        c["svcs"] = case["svcs"][:i] + case["svcs"][i + 1:]
        if c["reqs"]:
            yield c
    for i in range(len(case.get("ctl", []))):
        c = dict(case)
        c["ctl"] = case["ctl"][:i] + case["ctl"][i + 1:]
        yield c
    for i, r in enumerate(reqs):
        if r[1] > 0:
            c = dict(case)
            c["reqs"] = reqs[:i] + [[r[0], r[1] - 1, r[2], r[3]]] + reqs[i + 1:]
            yield c
    if case["policy"]["kind"] != "fifo":
        c = dict(case)
        c["policy"] = dict(case["policy"], kind="fifo")
        yield c


def pipew_mutate(case, rng):
    c = json.loads(json.dumps(case))
    reqs = c["reqs"]
    for _ in range(rng.randint(1, 3)):
        i = rng.randrange(len(reqs))
        k = rng.random()
        if k < 0.3:
            reqs[i][1] = rng.choice([0, 1, 2, 3])
        elif k < 0.6:
            reqs[i][0] = rng.choice(reqs)[0] + rng.choice([0, 1, 2, 4])
        elif k < 0.8 and len(reqs) < 12:
            reqs.append([rng.choice(reqs)[0] + rng.choice([0, 4]), rng.choice([0, 1, 2]), rng.choice([0, 1, 2]), rng.choice(reqs)[3]])
            c["svcs"].append(rng.choice(c["svcs"]))
        else:
            c["svcs"][i] = rng.choice([0, 1, 2, 4])
    return pipew_norm(c)


pipew = types.SimpleNamespace(generate=pipew_generate, run_impl=pipew_run_impl, model_block=pipew_model_block,
                              judge_block=pipew_judge_block, nontrivial_key=pipe_nontrivial_key,
                              shrink=pipew_shrink, mutate=pipew_mutate)

THEOREMS: list[str] = [
    "HappyModel.C08.conservation",
    "HappyModel.C08.held_le_capacity",
    "HappyModel.C08.fair_held_le_capacity",        # FairQueue(max_flows F, per_flow_capacity P >= 1): held <= F * P after every operation list
    "HappyModel.C08.fair_flows_le_capacity",       # … at most F flows, each holding at most P, total = sum of the flow depths
    "HappyModel.C08.fair_held_le_capacity_run",    # … after every prefix of the run
    "HappyModel.C08.fair_held_le_capacity_any",    # without P >= 1: held <= F * max P 1 (the model's first push into a fresh flow is not tested against P)
    "HappyModel.C08.fifo_order",
    "HappyModel.C08.lifo_order",
    "HappyModel.C08.prio_stable",
    "HappyModel.C08.deadline_order_expiry",
    "HappyModel.C08.spec_prio_pop",
    "HappyModel.C08.spec_deadline_pop",
    "HappyModel.C08.firstMin_is_stable_min",
    "HappyModel.C08.fair_rr",
    "HappyModel.C08.spec_fair_pop",
    "HappyModel.C08.spec_fifo_pop",
    "HappyModel.C08.spec_lifo_pop",
    "HappyModel.C08.Pipe.in_service_le_limit",
    "HappyModel.C08.Pipe.no_accepted_item_discarded",
    "HappyModel.C08.Pipe.item_state_partition_partial",
    "HappyModel.C08.Pipe.item_state_partition_full",
    "HappyModel.C08.Pipe.item_state_partition_every_event",
    "HappyModel.C08.Pipe.item_state_partition_any_schedule",
    "HappyModel.C08.Pipe.fifo_start_order",
    "HappyModel.C08.Pipe.fifo_end_to_end",
    "HappyModel.C08.Pipe.no_strand",
    "HappyModel.C08.Pipe.double_poll_discards",
    "HappyModel.C08.Pipe.double_poll_over_admits",
    "HappyModel.C08.Pipe.burst_strands_current",
    "HappyModel.C08.Pipe.shift_change_strands_current",
    "HappyModel.C08.Pipe.dispatched_before_payload_breaks",
    "HappyModel.C08.PipeW.used_eq_in_service_weight",
    "HappyModel.C08.PipeW.start_takes_weight",
    "HappyModel.C08.PipeW.finish_returns_weight",
    "HappyModel.C08.PipeW.start_never_exceeds_limit",
    "HappyModel.C08.PipeW.in_service_weight_le_limit",
    "HappyModel.C08.PipeW.final_dinv",
    "HappyModel.C08.PipeW.item_state_partition_count",
    "HappyModel.C08.PipeW.no_strand",
    "HappyModel.C08.PipeW.no_waiting_item_fits",
    "HappyModel.C08.PipeW.rejected_only_when_not_fitting",
    "HappyModel.C08.PipeW.rejected_is_counted_and_takes_nothing",
    "HappyModel.C08.PipeW.fitting_item_is_started",
    "HappyModel.C08.PipeW.admission_final_winv",
    "HappyModel.C08.PipeW.admission_no_accepted_item_discarded",
    "HappyModel.C08.PipeW.admission_item_state_partition_count",
    "HappyModel.C08.PipeW.admission_no_strand",
    "HappyModel.C08.PipeW.no_poll_granted_without_capacity_for_head",
    "HappyModel.C08.PipeW.weighted_head_rejected_and_counted",
    "HappyModel.C08.PipeW.scale_up_strands_current",
]
C08.theorems = THEOREMS + indus.THEOREMS
C08.partial_theorems = {**C08.partial_theorems, **indus.PARTIAL_THEOREMS}
C08.trusted_base = C08.trusted_base + indus.TRUSTED_BASE
C08.rule = C08.rule + "; " + indus.RULE
PROPERTY = C08()
