"""Regenerate the tables of DESIGN.md §13 from MANIFEST / property modules / known_findings / seeded/."""
import importlib
import json
import re
import sys
from pathlib import Path

ROOT = Path(__file__).resolve().parent.parent
sys.path.insert(0, str(ROOT))


def build_table():
    m = json.loads((ROOT / "MANIFEST.json").read_text())
    k = json.loads((ROOT / "known_findings.json").read_text())["findings"]
    rows = ["| id | theorems | partial / judged only | fixes | known |", "|---|---|---|---|---|"]
    for c in sorted(m["checks"], key=lambda c: c["property_id"]):
        pid = c["property_id"]
        P = importlib.import_module(f"hv.props.{pid.lower()}").PROPERTY
        names = [t.split(".")[-1] for t in P.theorems]
        part = list((getattr(P, "partial_theorems", {}) or {}).keys())
        fx = sorted({f["commit"] for f in k if f["property"] == pid and f["status"] == "fixed"})
        kn = [f["signature"] for f in k if f["property"] == pid and f["status"] == "known"]
        rows.append(f"| {pid} | {len(names)}: {', '.join(names[:10])}{', …' if len(names) > 10 else ''} | "
                    f"{'; '.join(p.split('.')[-1] for p in part[:6]) or '—'} | {len(fx)} | {len(kn)} |")
    for n in m.get("not_applicable", []):
        rows.append(f"| {n['property_id']} | not claimed | {n['reason'][:120]} | | |")
    return "\n".join(rows)


def seeded_table():
    rows = ["| id | property | what was changed | needs | check result | detected as |", "|---|---|---|---|---|---|"]
    for d in sorted((ROOT / "seeded").glob("*/meta.json")):
        meta = json.loads(d.read_text())
        res = meta.get("verif_result", {})
        if res.get("check_rc") == 1:
            verdict = "VIOLATION" + (" (no-failing-input-found)" if res.get("replay_kind") == "correspondence-broken" else "")
        elif res.get("superseded"):
            verdict = "not applicable any more: " + res["superseded"]
        else:
            verdict = "missed (exit 0)"
            caught = [f"{o}: {a.get('detected_as')}" for o, a in (res.get("also") or {}).items() if a.get("check_rc") == 1]
            if caught:
                verdict = "missed by this property's check (exit 0); VIOLATION from " + "; ".join(caught)
        rows.append(f"| {d.parent.name} | {meta.get('property')} | {str(meta.get('summary', ''))[:260].replace('|', '/')} | "
                    f"{str(meta.get('needs', ''))[:200].replace('|', '/')} | {verdict} | {res.get('detected_as') or ''} |")
    return "\n".join(rows)


def seeded_summary():
    from collections import Counter
    per = {}
    for d in sorted((ROOT / "seeded").glob("*/meta.json")):
        meta = json.loads(d.read_text())
        res = meta.get("verif_result", {})
        rnd = meta.get("round", "?")
        c = per.setdefault(rnd, Counter())
        c["kept"] += 1
        if res.get("check_rc") == 1 and res.get("replay_kind") == "correspondence-broken":
            c["nofail"] += 1
        elif res.get("check_rc") == 1:
            c["spec"] += 1
        elif res.get("superseded"):
            c["superseded"] += 1
        elif any(a.get("check_rc") == 1 for a in (res.get("also") or {}).values()):
            c["other"] += 1
        else:
            c["missed"] += 1
    rows = ["| round | kept | VIOLATION with a failing input (Spec violated) | VIOLATION no-failing-input-found | caught only by another property's check | superseded by a /repo fix | missed |",
            "|---|---|---|---|---|---|---|"]
    tot = Counter()
    for rnd in sorted(per):
        c = per[rnd]
        tot.update(c)
        rows.append(f"| {rnd} | {c['kept']} | {c['spec']} | {c['nofail']} | {c['other']} | {c['superseded']} | {c['missed']} |")
    rows.append(f"| all | {tot['kept']} | {tot['spec']} | {tot['nofail']} | {tot['other']} | {tot['superseded']} | {tot['missed']} |")
    return "\n".join(rows)


def main():
    p = ROOT / "DESIGN.md"
    s = p.read_text()
    for marker, body in (("BUILD-TABLE", build_table()), ("SEEDED-SUMMARY", seeded_summary()), ("SEEDED-TABLE", seeded_table())):
        pat = re.compile(rf"<!-- {marker} -->.*?(<!-- /{marker} -->|(?=\n\n))", re.S)
        s = pat.sub(lambda m: f"<!-- {marker} -->\n{body}\n<!-- /{marker} -->", s, count=1)
    p.write_text(s)


if __name__ == "__main__":
    main()
